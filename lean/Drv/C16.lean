import Py4hwV.Drv.Proto
import Py4hwV.Proto.AxiSpec
import Py4hwV.Proto.AxiClk
/- C16 driver: runs the executable definitions of Proto/Axi.lean and Proto/AxiSpec.lean.
   a2r  | W,DW    | active,loaded,q        | start,reset,done,tvalid,tdata ; …            → per cycle: state(3),wires(8) ; …
   a2rG | …  same, through the composition of the GENERATED leaf definitions
   r2a  | W,DW,KW | active,tvalid,tdata,sent | start,reset,done,load,reg_in,tready ; …    → per cycle: state(4),wires(11) ; …
   r2aG | …
   oa2r | W       | active,loaded,q,tready | start,reset,done,tvalid,tdata,active',loaded',q',tready' ; …   → verdict
   or2a | mode(0 literal,1 quiet,2 tolerant),W,DW,KW | tvalid,tdata,tlast,tkeep,sent,active | start,reset,done,load,reg_in,tready,tvalid',…,active' ; … → verdict
   clk  | CW      | active,state,target,count,clk_out,load_outs | start,reset,done,tvalid,tdata ; …   → per cycle: state(6),active_handshake
   clkG | …  same, through Gen.Axi2ClkFSM.step
   oclk | strict,CW | clk_out,load_outs,active,tready | start,reset,done,tvalid,tdata,clk_out',load_outs',active',tready' ; … → verdict
   ports | a2r|r2a|clk                          → name:isInput,…
   keep | W                                 → tkeepVal W
   verdict: `ok` | `stop t` | `fail t clause pend` -/
open Proto Axi

def nat (l : List Int) (k : Nat) : Nat := (l.getD k 0).toNat

def showVerdict : Spec.Verdict → String
  | .ok => "ok"
  | .stop t => s!"stop {t}"
  | .fail t cl p => s!"fail {t} {cl} {showBool p}"

def a2rRun (g : Bool) (c : A2R.Cfg) : A2R.St → List A2R.In → List (List Nat)
  | _, [] => []
  | s, i :: is =>
    let s' := if g then A2R.stepG c s i else A2R.step c s i
    let w := if g then A2R.combG c s' i else A2R.comb c s' i
    [s'.active, s'.loaded, s'.q, w.inactive, w.tready, w.handshake, w.ap_start_inactive, w.active_handshake, w.tdata,
      w.reset_loaded, w.reset_active] :: a2rRun g c s' is

def r2aRun (g : Bool) (c : R2A.Cfg) : R2A.St → List R2A.In → List (List Nat)
  | _, [] => []
  | s, i :: is =>
    let s' := if g then R2A.stepG c s i else R2A.step c s i
    let w := if g then R2A.combG c s' i else R2A.comb c s' i
    [s'.active, s'.tvalid, s'.tdata, s'.sent, w.inactive, w.handshake, w.ap_start_inactive, w.active_handshake, w.one,
      w.reset_tvalid, w.set_tvalid, w.tkeep, w.tlast, w.reset_sent, w.reset_active] :: r2aRun g c s' is

def clkRun (g : Bool) (c : Clk.Cfg) : Clk.St → List Clk.In → List (List Nat)
  | _, [] => []
  | s, i :: is =>
    let s' := if g then Clk.stepG c s i else Clk.step c s i
    [s'.active, s'.state, s'.target, s'.count, s'.clk_out, s'.load_outs, Clk.activeHandshake s' i] :: clkRun g c s' is

def showRows (r : List (List Nat)) : String := ";".intercalate (r.map showNats)

def handle (line : String) : String :=
  match fields line with
  | [op, cfg, st, cyc] =>
    let c := parseInts cfg
    let s := parseInts st
    let cy := parseLists cyc
    match op with
    | "a2r" | "a2rG" =>
      showRows (a2rRun (op == "a2rG") ⟨nat c 0, nat c 1⟩ ⟨nat s 0, nat s 1, nat s 2⟩
        (cy.map fun l => ⟨nat l 0, nat l 1, nat l 2, nat l 3, nat l 4⟩))
    | "r2a" | "r2aG" =>
      showRows (r2aRun (op == "r2aG") ⟨nat c 0, nat c 1, nat c 2⟩ ⟨nat s 0, nat s 1, nat s 2, nat s 3⟩
        (cy.map fun l => ⟨nat l 0, nat l 1, nat l 2, nat l 3, nat l 4, nat l 5⟩))
    | "clk" | "clkG" =>
      showRows (clkRun (op == "clkG") ⟨nat c 0⟩ ⟨nat s 0, nat s 1, nat s 2, nat s 3, nat s 4, nat s 5⟩
        (cy.map fun l => ⟨nat l 0, nat l 1, nat l 2, nat l 3, nat l 4⟩))
    | "oclk" =>
      showVerdict (Spec.Clk.check (nat c 0 != 0) (nat c 1) ⟨nat s 0, nat s 1, nat s 2, nat s 3⟩
        (cy.map fun l => (⟨nat l 0, nat l 1, nat l 2, nat l 3, nat l 4⟩, ⟨nat l 5, nat l 6, nat l 7, nat l 8⟩)))
    | "oa2r" =>
      showVerdict (Spec.A2R.check (nat c 0) ⟨nat s 0, nat s 1, nat s 2, nat s 3⟩
        (cy.map fun l => (⟨nat l 0, nat l 1, nat l 2, nat l 3, nat l 4⟩, ⟨nat l 5, nat l 6, nat l 7, nat l 8⟩)))
    | "or2a" =>
      showVerdict (Spec.R2A.check (nat c 0) ⟨nat c 1, nat c 2, nat c 3⟩
        ⟨nat s 0, nat s 1, nat s 2, nat s 3, nat s 4, nat s 5⟩
        (cy.map fun l => (⟨nat l 0, nat l 1, nat l 2, nat l 3, nat l 4, nat l 5⟩,
                          ⟨nat l 6, nat l 7, nat l 8, nat l 9, nat l 10, nat l 11⟩)))
    | _ => "bad-op"
  | ["ports", k] =>
    let p := if k == "a2r" then A2R.ports else if k == "r2a" then R2A.ports else if k == "clk" then Clk.ports else []
    ",".intercalate (p.map fun (n, b) => s!"{n}:{showBool b}")
  | ["keep", w] => toString (R2A.tkeepVal (nat (parseInts w) 0))
  | _ => "bad-op"

def main : IO Unit := Proto.run handle
