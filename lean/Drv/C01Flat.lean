import Py4hwV.Drv.Proto
import Py4hwV.Verilog.SExp
import Py4hwV.Emit.FlatText
/- C01 flat-text driver (session).
     design <sexp>     the parsed real text (harness/vparse.py)                               -> ok | parse-error
     src <sexp>        the imported description                                               -> ok | parse-error
         (src <top> <clk> (widths w…) (names n…) (inputs k…) (outputs k…) (locals k…)
              (children (prim <kind> <args…>) | (reg <iname> <mname> <hasR> <hasE> <rv> <d> <e> <r> <q>) …) (order i…))
     check             parsed text = `FlatSrc.emit` (decidable equality) and every condition of `FlatSrc.checks`
                       -> ok | text-differs <first differing module> | fails <names of failed conditions> -/
open Proto V FlatM

structure Sess where
  d : Option Design := none
  s : Option FlatSrc := none

def nats? (l : List SExp) : Option (List Nat) := l.mapM nat?
def atoms? (l : List SExp) : Option (List String) := l.mapM fun x => match x with | .atom a => some a | _ => none

def toKind : List SExp → Option Kind
  | [.atom "and2", a, b, r] => do some (.and2 (← nat? a) (← nat? b) (← nat? r))
  | [.atom "or2", a, b, r] => do some (.or2 (← nat? a) (← nat? b) (← nat? r))
  | [.atom "not1", a, r] => do some (.not1 (← nat? a) (← nat? r))
  | [.atom "buf", a, r] => do some (.buf (← nat? a) (← nat? r))
  | [.atom "zext", a, r] => do some (.zext (← nat? a) (← nat? r))
  | [.atom "bit", a, k, r] => do some (.bit (← nat? a) (← nat? k) (← nat? r))
  | [.atom "mux2", s, s0, s1, r] => do some (.mux2 (← nat? s) (← nat? s0) (← nat? s1) (← nat? r))
  | [.atom "const", v, r] => do some (.const (← nat? v) (← nat? r))
  | [.atom "shl", a, n, r] => do some (.shl (← nat? a) (← nat? n) (← nat? r))
  | [.atom "shr", a, n, r] => do some (.shr (← nat? a) (← nat? n) (← nat? r))
  | [.atom "addc", a, b, c, r] => do some (.addc (← nat? a) (← nat? b) (← nat? c) (← nat? r))
  | [.atom "sub", a, b, r] => do some (.sub (← nat? a) (← nat? b) (← nat? r))
  | [.atom "mul", a, b, r] => do some (.mul (← nat? a) (← nat? b) (← nat? r))
  | [.atom "range", a, hi, lo, r] => do some (.range (← nat? a) (← nat? hi) (← nat? lo) (← nat? r))
  | [.atom "catm", r, .list ins] => do some (.catm (← nats? ins) (← nat? r))
  | [.atom "catl", r, .list ins] => do some (.catl (← nats? ins) (← nat? r))
  | [.atom "rept", i, r] => do some (.rept (← nat? i) (← nat? r))
  | [.atom "sext", a, r] => do some (.sext (← nat? a) (← nat? r))
  | [.atom "smul", a, b, r] => do some (.smul (← nat? a) (← nat? b) (← nat? r))
  | _ => none

def toChild : SExp → Option FlatM.Child
  | .list (.atom "prim" :: rest) => do some (.prim (← toKind rest))
  | .list [.atom "reg", .atom i, .atom m, hr, he, rv, d, e, r, q] => do
      some (.reg { iname := i, mname := m,
                   leaf := { hasR := (← nat? hr) != 0, hasE := (← nat? he) != 0, rv := ← nat? rv, d := ← nat? d, e := ← nat? e,
                             r := ← nat? r, q := ← nat? q } })
  | _ => none

def toSrc : SExp → Option FlatSrc
  | .list [.atom "src", .atom top, .atom clk, .list (.atom "widths" :: ws), .list (.atom "names" :: ns),
           .list (.atom "inputs" :: is), .list (.atom "outputs" :: os), .list (.atom "locals" :: ls),
           .list (.atom "children" :: cs), .list (.atom "order" :: od)] => do
      some { top := top, clk := clk, widths := ← nats? ws, names := ← atoms? ns, inputs := ← nats? is, outputs := ← nats? os,
             locals := ← nats? ls, children := ← cs.mapM toChild, order := ← nats? od }
  | _ => none

def firstDiff : List Module → List Module → String
  | [], [] => "none"
  | a :: as, b :: bs => if a = b then firstDiff as bs else s!"{a.name}: text {reprStr a} /// model {reprStr b}"
  | a :: _, [] => s!"extra module in text: {a.name}"
  | [], b :: _ => s!"module missing in text: {b.name}"

def stepS (ss : Sess) (line : String) : Sess × String :=
  if line.startsWith "design " then
    match readDesign (line.drop 7).toString with
    | some d => ({ ss with d := some d }, "ok")
    | none => (ss, "parse-error")
  else if line.startsWith "src " then
    match (readS (line.drop 4).toString).bind toSrc with
    | some s => ({ ss with s := some s }, "ok")
    | none => (ss, "parse-error")
  else if line == "check" then
    match ss.d, ss.s with
    | some d, some s =>
      if d = s.emit then
        let bad := s.checks.filter (fun c => !c.2)
        if bad.isEmpty then (ss, "ok") else (ss, "fails " ++ ",".intercalate (bad.map (·.1)))
      else (ss, "text-differs " ++ ((firstDiff d s.emit).replace "\n" " "))
    | _, _ => (ss, "bad-op")
  else (ss, "bad-op")

partial def loop (h : IO.FS.Stream) (o : IO.FS.Stream) (ss : Sess) : IO Unit := do
  let line ← h.getLine
  if line.isEmpty then return ()
  let (ss', out) := stepS ss (trim line)
  o.putStrLn out
  loop h o ss'

def main : IO Unit := do
  let i ← IO.getStdin
  let o ← IO.getStdout
  loop i o {}
  o.flush
