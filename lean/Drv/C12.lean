import Py4hwV.Drv.Proto
import Py4hwV.Helper.Spec
/- C12 driver: runs the executable model (`Helper.*`) and the generated definitions (`Gen.IntegerHelper.*`, `Gen.Helper.signExtend`,
   `Gen.C12.*`), and evaluates the specification functions of Props/C12 (`FPNum.value`, `IEEE.decode`, `c2Signed`) on observed values.
   float transport:  F:<neg 0/1>:<n>:<k>  (= (−1)^neg · n · 2^k, answers have n odd or 0:0)   I:<neg>   N
   FPNum transport:  s,e,m,p,infinity,nan,inexact        error (raise / non-termination) = "err" -/
open Proto Helper

partial def canon (d : Dy) : Dy :=
  if d.n == 0 then ⟨0, 0⟩ else if d.n % 2 == 0 then canon ⟨d.n / 2, d.k + 1⟩ else d

def parseFloat (s : String) : Option PyFloat :=
  match (trim s).splitOn ":" with
  | ["F", a, n, k] => match parseInt? a, parseInt? n, parseInt? k with
    | some a, some n, some k => some (.fin (a != 0) ⟨n, k⟩)
    | _, _, _ => none
  | ["I", a] => (parseInt? a).map fun a => .inf (a != 0)
  | ["N"] => some .nan
  | _ => none

def showFloat (f : PyFloat) : String :=
  match f with
  | .fin neg d => let c := canon d; s!"F:{if neg then 1 else 0}:{c.n}:{c.k}"
  | .inf neg => s!"I:{if neg then 1 else 0}"
  | .nan => "N"

def showDy (d : Dy) : String := let c := canon d; s!"{c.n}:{c.k}"

def parseFP (s : String) : Option FPNum :=
  match parseInts s with
  | [s, e, m, p, i, n, x] => some { s := s, e := e, m := m, p := p, infinity := i != 0, nan := n != 0, inexact := x != 0 }
  | _ => none

def b2i (b : Bool) : Int := if b then 1 else 0
def showFP (x : FPNum) : String := showInts [x.s, x.e, x.m, x.p, b2i x.infinity, b2i x.nan, b2i x.inexact]
def showOFP (x : Option FPNum) : String := match x with | some x => showFP x | none => "err"
def showOI (x : Option Int) : String := match x with | some x => toString x | none => "err"
def show3 (t : Int × Int × Int) : String := showInts [t.1, t.2.1, t.2.2]
def showO3 (t : Option (Int × Int × Int)) : String := match t with | some t => show3 t | none => "err"

def parseFmt (s : String) : Option Fmt :=
  match s with | "hp" => some .hp | "sp" => some .sp | "dp" => some .dp | _ => none

def ieeeFmt (s : String) : Option IEEE.Format :=
  match s with | "hp" => some IEEE.half | "sp" => some IEEE.single | "dp" => some IEEE.double | _ => none

def showRat (r : Rat) : String := s!"{r.num}/{r.den}"

def handle (line : String) : String :=
  let fs := fields line
  let hd := ((fs.headD "").splitOn " ").filter (· ≠ "")
  match hd, fs.drop 1 with
  -- integer helpers (generated definitions)
  | ["c2s"], [a] => match parseInts a with
    | [v, w] => toString (Gen.IntegerHelper.signed_to_c2 v w) | _ => "bad"
  | ["c2u"], [a] => match parseInts a with
    | [v, w] => toString (Gen.IntegerHelper.c2_to_signed v w) | _ => "bad"
  | ["sext"], [a] => match parseInts a with
    | [v, w, nw] => toString (Gen.Helper.signExtend v w nw) | _ => "bad"
  | ["c2spec"], [a] => match parseInts a with
    | [w, x] => toString (c2Signed w.toNat x) | _ => "bad"
  -- fixed point
  | ["fxadd"], [a] => match parseInts a with
    | [sw, iw, fw, x, y] => showOI (FixedPoint.add ⟨sw, iw, fw⟩ x y) | _ => "bad"
  | ["fxsub"], [a] => match parseInts a with
    | [sw, iw, fw, x, y] => showOI (FixedPoint.sub ⟨sw, iw, fw⟩ x y) | _ => "bad"
  | ["fxmult"], [a] => match parseInts a with
    | [sw, iw, fw, x, y] => showOI (FixedPoint.mult ⟨sw, iw, fw⟩ x y) | _ => "bad"
  | ["fxint"], [a] => match parseInts a with
    | [sw, iw, fw, v] => showOI (FixedPoint.intToFixedPoint ⟨sw, iw, fw⟩ v) | _ => "bad"
  | ["fxfloat"], [a, f] => match parseInts a, parseFloat f with
    | [sw, iw, fw], some v => showOI (FixedPoint.floatToFixedPoint ⟨sw, iw, fw⟩ v) | _, _ => "bad"
  | ["fxtofloat"], [a] => match parseInts a with
    | [sw, iw, fw, v] => showFloat (FixedPoint.toFloatingPoint ⟨sw, iw, fw⟩ v) | _ => "bad"
  -- FPNum
  | ["fpnew"], [a] => match parseInts a with
    | [s, e, m, p] => showOFP (FPNum.mk4 s e m p) | _ => "bad"
  | ["fpfrom", f], [a] => match parseFmt f, parseInt? a with
    | some f, some v => showOFP (FPNum.from_ieee754 f v) | _, _ => "bad"
  | ["fpfloat"], [a] => match parseFloat a with
    | some v => showOFP (FPNum.convert_float_to_semp v) | _ => "bad"
  | ["fpconv", f], [a] => match parseFmt f, parseFP a with
    | some f, some x => showOI (x.convert f) | _, _ => "bad"
  | ["fpadd"], [a, b] => match parseFP a, parseFP b with
    | some x, some y => showOFP (x.add y) | _, _ => "bad"
  | ["fpsub"], [a, b] => match parseFP a, parseFP b with
    | some x, some y => showOFP (x.sub y) | _, _ => "bad"
  | ["fpmul"], [a, b] => match parseFP a, parseFP b with
    | some x, some y => showOFP (x.mul y) | _, _ => "bad"
  | ["fpcmp"], [a, b] => match parseFP a, parseFP b with
    | some x, some y => showOI (x.compare y) | _, _ => "bad"
  | ["fpneg"], [a] => match parseFP a with | some x => showOFP x.neg | _ => "bad"
  | ["fpabs"], [a] => match parseFP a with | some x => showOFP x.abs | _ => "bad"
  | ["fpdiv2"], [a, n] => match parseFP a, parseInt? n with
    | some x, some n => showOFP (x.div2 n) | _, _ => "bad"
  | ["fpredp"], [a, n] => match parseFP a, parseInt? n with
    | some x, some n => showOFP (x.reducePrecision n) | _, _ => "bad"
  | ["fpincexp"], [a, n] => match parseFP a, parseInt? n with
    | some x, some n => showFP (x.increase_exponent n) | _, _ => "bad"
  | ["fpincprec"], [a, n] => match parseFP a, parseInt? n with
    | some x, some n => showOFP (x.increase_precision n) | _, _ => "bad"
  | ["fpunpack", f], [a] => match f, parseInt? a with
    | "hp", some v => show3 (FPNum.unpack_ieee754_hp_parts v)
    | "sp", some v => show3 (FPNum.unpack_ieee754_sp_parts v)
    | "dp", some v => show3 (FPNum.unpack_ieee754_dp_parts v)
    | "fphsp", some v => show3 (FPH.unpack_ieee754_sp_parts v)
    | "fphdp", some v => show3 (FPH.unpack_ieee754_dp_parts v)
    | _, _ => "bad"
  | ["fppack", f], [a] => match f, parseInts a with
    | "hp", [s, e, m] => toString (Gen.C12.fpnum_pack_hp s e m)
    | "sp", [s, e, m] => toString (Gen.C12.fpnum_pack_sp s e m)
    | "dp", [s, e, m] => toString (Gen.C12.fpnum_pack_dp s e m)
    | "fphsp", [s, e, m] => toString (Gen.C12.fph_pack_sp s e m)
    | _, _ => "bad"
  -- FloatingPointHelper
  | ["parts"], [a] => match parseFloat a with
    | some v => (match FPH.fp_to_parts v with | some (s, e, m) => s!"{s},{e},{showDy m}" | none => "err")
    | _ => "bad"
  | ["encp", f], [a] => match f, parseFloat a with
    | "sp", some v => showO3 (FPH.sp_to_ieee754_parts v)
    | "dp", some v => showO3 (FPH.dp_to_ieee754_parts v)
    | _, _ => "bad"
  | ["enc", f], [a] => match f, parseFloat a with
    | "sp", some v => showOI (FPH.sp_to_ieee754 v)
    | "dp", some v => showOI (FPH.dp_to_ieee754 v)
    | _, _ => "bad"
  | ["dec", f], [a] => match f, parseInt? a with
    | "sp", some v => showFloat (FPH.ieee754_to_sp v)
    | "dp", some v => showFloat (FPH.ieee754_to_dp v)
    | _, _ => "bad"
  -- specification functions
  | ["spec-decode", f], [a] => match ieeeFmt f, parseInt? a with
    | some f, some v => showFloat (IEEE.decode f v.toNat) | _, _ => "bad"
  | ["spec-trunc", f], [a] => match parseFmt f, parseFP a with
    | some f, some x => if x.isNormalised then toString (x.truncBits f) else "nonnorm" | _, _ => "bad"
  | ["spec-value"], [a] => match parseFP a with
    | some x => if x.Finite then showRat x.value else "nonfinite" | _ => "bad"
  | ["spec-arith", op], [a, b, r] => match parseFP a, parseFP b, parseFP r with
    | some x, some y, some z =>
      if x.Finite ∧ y.Finite ∧ z.Finite then
        (match op with
         | "add" => showBool (z.value == x.value + y.value)
         | "sub" => showBool (z.value == x.value - y.value)
         | "mul" => showBool (z.value == x.value * y.value)
         | _ => "bad")
      else "nonfinite"
    | _, _, _ => "bad"
  | ["spec-cmp"], [a, b] => match parseFP a, parseFP b with
    | some x, some y => if x.Finite ∧ y.Finite then toString (ratCmp x.value y.value) else "nonfinite"
    | _, _ => "bad"
  | _, _ => "bad-op"

def main : IO Unit := Proto.run handle
