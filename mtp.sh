#!/bin/bash
# usage: mtp.sh <patchfile> <Cxx> [Cyy ...]  — run checks against a private copy of /repo with the patch applied
PATCH=$(readlink -f "$1"); shift
D=/tmp/mtp_$$
rm -rf $D && mkdir -p $D && cp -r /repo $D/repo && rsync -a --exclude .git --exclude replays /verif/ $D/verif/
(cd $D/repo && git apply --whitespace=nowarn "$PATCH") || { echo "patch does not apply"; rm -rf $D; exit 2; }
for P in "$@"; do
  echo "== $P"
  PY4HW_REPO=$D/repo $D/verif/check $P --tier ${TIER:-quick} 2>&1 | grep -v "^  no longer\|^$" | cut -c1-400 | tail -4
done
rm -rf $D
