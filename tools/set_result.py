#!/usr/bin/env python3
"""usage: set_result.py <seed id> <result text>   -- record the outcome of ./mtp.sh seeded/<id>/patch.diff in seeded/<id>/meta.json"""
import json, sys
k, txt = sys.argv[1], sys.argv[2]
p = f'/verif/seeded/{k}/meta.json'
m = json.load(open(p))
m['checks_run'] = [f'./mtp.sh seeded/{k}/patch.diff {k[:3]}']
m['result'] = txt
json.dump(m, open(p, 'w'), indent=1, ensure_ascii=False)
