#!/bin/bash
# usage: tools/process_seeds.sh <id> [<id> ...]   (expects /tmp/seedwt/<id>.patch, <id>_demo.py, <id>.json)
# removes the author's worktree, runs the owning check against a private patched copy (mtp.sh), confirms the seed in a scratch
# worktree (confirm_seed.sh) and records verdict + first failing-input line in seeded/<id>/meta.json; prints one line per seed.
cd "$(dirname "$0")/.."
mkdir -p /tmp/mtout
for s in "$@"; do git -C /repo worktree remove --force /tmp/seedwt/$s 2>/dev/null; done; git -C /repo worktree prune
printf '%s\n' "$@" | xargs -P 5 -I{} bash -c 'P=$(echo {} | cut -c1-3); ./mtp.sh /tmp/seedwt/{}.patch $P > /tmp/mtout/{}.txt 2>&1'
printf '%s\n' "$@" | xargs -P 4 -I{} tools/confirm_seed.sh {} > /tmp/mtout/confirm.log 2>&1
python3 - "$@" <<'PY'
import json, sys, re
for k in sys.argv[1:]:
    t = open(f'/tmp/mtout/{k}.txt').read()
    lines = [l for l in t.splitlines() if not l.startswith('KNOWN-FINDING') and not l.startswith('==')]
    v = next((l for l in lines if l.startswith('VIOLATION')), None)
    fi = next((l.strip() for l in lines if l.strip().startswith('failing input')), '')
    if v and 'no-failing-input-found' in v:
        verdict = 'TIE-ONLY'
        res = 'VIOLATION … no-failing-input-found (a proof obligation or the correspondence broke, no oracle found a concrete input)'
    elif v:
        verdict = 'CAUGHT'
        m = re.search(r'"what": "([^"]{0,200})', fi)
        res = 'caught: VIOLATION with a concrete failing input' + (f' ({m.group(1)})' if m else '')
    elif any(l.startswith('OK ') for l in lines):
        verdict, res = 'MISSED', 'MISSED (quick tier exits 0)'
    else:
        verdict, res = 'TOOL?', 'tool failure: ' + ' '.join(lines[-2:])[:200]
    p = f'/verif/seeded/{k}/meta.json'
    try:
        m_ = json.load(open(p))
    except Exception:
        print(k, verdict, 'NO META'); continue
    m_['checks_run'] = [f'./mtp.sh seeded/{k}/patch.diff {k[:3]}']
    m_['result'] = res
    json.dump(m_, open(p, 'w'), indent=1, ensure_ascii=False)
    print(f"{k:6s} {verdict:9s} confirmed={m_['confirmed']['ok']}  {fi[:150]}")
PY
