#!/usr/bin/env python3
"""Regenerates DESIGN.md sections 11 (defects) and 12 (seeded changes) from known_findings.json and seeded/*/meta.json."""
import json, glob, os
V = os.path.abspath(os.path.join(os.path.dirname(__file__), '..'))
k = json.load(open(os.path.join(V, 'known_findings.json')))['findings']
fixed = [f for f in k if f['status'] == 'fixed']
known = [f for f in k if f['status'] == 'known']
L = ['\n---------------------------------------------------------------------------------------------\n',
     '## 11. Defects found in davidcastells/py4hw\n',
     'Every entry was first shown against the real code by a check (failing input / history / design in `known_findings.json`, witness theorems named in `notes/Cxx.md`).\n',
     '### 11.1 Repaired (`fix:` commits in /repo, each minimal and unguarded; the 161 tests pass with them)\n',
     '| commit | property | what failed |', '|---|---|---|']
for f in fixed:
    w = f['what']
    c = f.get('commit', '')
    if c and c in w:
        w = w.split(c, 1)[-1].strip()
    L.append(f"| {c} | {f['property']} | {w[:330]} |")
L.append('\nA `fixed` entry suppresses nothing: each check re-runs the former witness (now in its corpus) and reports a regression as a VIOLATION. After every repair the owning model was updated to the code as it is (e.g. `Net.Sched` models the sorter with the self-loop test and `max(1000, n+1)` passes; `Net.initC` models Reg putting its reset value at construction; `Build.Model` has the rename pre-check) and the theorems that had been `_partial` because of the defect were re-proved at full strength (`C04.cyclic_rejected`, `C01.inline_mux2`, `C01.reg_body_step` for controls of any width, `C11.reject_keeps_earlier`, `C12.fpnum_compare_spec`, `C07.rotateLeftConstant_spec`, `C09.dualPort_read_before_write`).\n')
L.append('The baseline test `Test_FPAdder_SP::test_random` draws unseeded operands and fails on near-cancelling pairs in roughly one run in eight, on the original tree as well as on every later one; it is unrelated to these commits.\n')
L.append('### 11.2 Recorded as known findings (not small/safe to repair, or a matter of interpretation)\n')
L += ['| id | anchor | what |', '|---|---|---|']
for f in known:
    L.append(f"| {f['id']} | {f.get('anchor', '')} | {f['what'][:300]} |")
L.append('\nEach has a `class_expr` that is the complement of the hypothesis of the corresponding `_partial` theorem, so a different failure of the same property is still a VIOLATION. Each check prints one `KNOWN-FINDING:` line per listed finding it reproduces on the current tree and exits 0.\n')
rows = []
for p in sorted(glob.glob(os.path.join(V, 'seeded', '*', 'meta.json'))):
    m = json.load(open(p))
    d = m.get('description', {})
    what = d.get('what_it_breaks') or d.get('description') or ''
    need = d.get('needs_to_manifest', '')
    if isinstance(what, list):
        what = ' '.join(map(str, what))
    if isinstance(need, list):
        need = ' '.join(map(str, need))
    rows.append(f"| {m['id']} | {str(what)[:200]} | {str(need)[:170]} | {m.get('result', '')[:300]} |")
S = ['\n---------------------------------------------------------------------------------------------\n',
     '## 12. Seeded changes and which checks catch them\n',
     'Each change was written by a fresh sub-agent that saw only the property text and its own scratch worktree of /repo (nothing from /verif), together with a demonstration script. `tools/confirm_seed.sh` re-confirmed each one in a scratch worktree (patch applies to HEAD, the 161 tests pass with it, the demonstration fails with it and passes without it) and stored it under `seeded/<id>/` (`patch.diff`, `demo.py`, `meta.json`). To replay: `./mtp.sh seeded/<id>/patch.diff <Cxx>` (runs the check on a patched private copy; /repo is never modified).\n',
     '| id | what it breaks | needs to manifest | result of `./check` (quick tier) |', '|---|---|---|---|'] + rows
S.append('\nWhat the misses taught (all fixed in the checks, see git log): generators must cover *user-defined* leaves (C06b), drivers placed directly on leaves (C10b), netlists that change after the simulator exists without changing their leaf count (C04a), register chains with private resets and non-zero reset values (C05a), circuits whose classes share a name (C19a), structural parameters forwarded under another name (C03b); the translator must not skip "harmless" branches (the already-prepared branch of `Wire.prepare`, C06b); an oracle on the implementation must never depend on the model side being buildable (C05a), and a crash of the system under test is a finding candidate, not a tool failure (C06a).\n')
p = os.path.join(V, 'DESIGN.md')
s = open(p).read()
b, e = '<!-- BEGIN GENERATED S11-S12 (tools/mk_design_tables.py) -->', '<!-- END GENERATED S11-S12 -->'
i, j = s.index(b) + len(b), s.index(e)
s = s[:i] + '\n' + '\n'.join(L) + '\n'.join(S) + '\n' + s[j:]
open(p, 'w').write(s)
print(len(fixed), 'fixed', len(known), 'known', len(rows), 'seeds')
