#!/usr/bin/env python3
"""Merge the per-property finding proposals into /verif/known_findings.json (run by the integrator, never at check time).
Sources: corpus/*/proposed_findings.json, corpus/*/known_finding_proposal.json, PROPOSED_FINDINGS lists in harness/cXX.py.
A proposal with the same id replaces the listed entry (so agents can flip status known -> fixed)."""
import json, os, sys, glob, re, ast
V = os.path.abspath(os.path.join(os.path.dirname(__file__), '..'))
k = json.load(open(os.path.join(V, 'known_findings.json')))
by_id = {f['id']: f for f in k['findings']}
order = [f['id'] for f in k['findings']]


def put(f, src):
    f = dict(f)
    if f.get('status') == 'fixed':
        c = f.get('commit') or f.get('fixed_by') or f.get('fixed_in') or ''
        f['commit'] = c
        if not str(f.get('what', '')).startswith('fixed:'):
            f['what'] = f"fixed: property={f['property']} {c} {f.get('what', '')}"
    if f['id'] not in by_id:
        order.append(f['id'])
    by_id[f['id']] = f
    print(f"  {f['id']:45s} {f.get('status'):6s} from {src}")


for p in sorted(glob.glob(os.path.join(V, 'corpus', '*', '*finding*.json'))):
    try:
        d = json.load(open(p))
    except Exception as e:
        print('skip', p, e)
        continue
    for f in (d if isinstance(d, list) else d.get('findings', [])):
        if isinstance(f, dict) and 'id' in f and 'property' in f:
            put(f, os.path.relpath(p, V))
for p in sorted(glob.glob(os.path.join(V, 'harness', 'c[0-9][0-9]*.py'))):
    src = open(p).read()
    try:
        tree = ast.parse(src)
    except SyntaxError:
        continue
    env = {}
    for node in tree.body:
        if isinstance(node, ast.Assign) and len(node.targets) == 1 and isinstance(node.targets[0], ast.Name) and node.targets[0].id != 'PROPOSED_FINDINGS':
            # module-level constants a proposal may refer to (e.g. a witness history)
            try:
                env[node.targets[0].id] = eval(compile(ast.Expression(node.value), p, 'eval'), {'__builtins__': {}}, dict(env))
            except Exception:
                pass
        if isinstance(node, ast.Assign) and any(isinstance(t, ast.Name) and t.id == 'PROPOSED_FINDINGS' for t in node.targets):
            try:
                lst = ast.literal_eval(node.value)
            except Exception:
                try:
                    lst = eval(compile(ast.Expression(node.value), p, 'eval'), {'__builtins__': {'dict': dict, 'list': list, 'len': len, 'range': range, 'str': str, 'sorted': sorted}}, dict(env))
                except Exception as e:
                    print('cannot evaluate PROPOSED_FINDINGS in', p, e)
                    continue
            for f in lst:
                put(f, os.path.relpath(p, V))
extra = os.path.join(V, 'tools', 'extra_findings.json')
if os.path.exists(extra):
    for f in json.load(open(extra))['findings']:
        put(f, 'tools/extra_findings.json')
k['findings'] = [by_id[i] for i in order]
json.dump(k, open(os.path.join(V, 'known_findings.json'), 'w'), indent=1)
print(len(k['findings']), 'entries;', sum(1 for f in k['findings'] if f.get('status') == 'known'), 'known,',
      sum(1 for f in k['findings'] if f.get('status') == 'fixed'), 'fixed')
