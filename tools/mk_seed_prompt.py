#!/usr/bin/env python3
"""usage: mk_seed_prompt.py <Cxx> <id1> <id2> [...]  -> writes /tmp/seedwt/prompt_<Cxx>_<id1>.txt
The prompt contains ONLY the property text (from properties.jsonl) and one-line summaries of the earlier seeded changes
(so that the author does not repeat them) - nothing about the verification machinery."""
import json, sys, os, glob
pid, ids = sys.argv[1], sys.argv[2:]
P = None
for l in open('/verif/properties.jsonl'):
    p = json.loads(l)
    if p['id'] == pid:
        P = p
earlier = []
for d in sorted(glob.glob(f'/verif/seeded/{pid}*')):
    m = json.load(open(d + '/meta.json'))
    desc = m.get('description', {})
    w = desc.get('what_it_breaks') or desc.get('what') or ''
    earlier.append(f"- earlier change {os.path.basename(d)[-1].upper()}: {str(w)[:330]}")
mech = '; '.join(f"{m['name']} ({m['where']})" for m in P['anchors'].get('mechanism', []))
txt = f"""You are helping evaluate verification tooling for the open-source Python HDL library py4hw (git repository at /repo, Python env: /venv/bin/python). Your job is to author realistic *seeded defects*: small source changes that break ONE stated behavioural property of the library while everything else keeps working. You do NOT have access to the verification tooling and must not look for it: work ONLY inside your own scratch git worktrees under /tmp/seedwt/ — never read, list or modify /verif, and never modify /repo itself (no commits there, no edits to its working tree).

THE PROPERTY ({pid}) — "{P['title']}"
{P['statement']}
It must hold over: {P['quantifier']['text']}
Code it is anchored in: {', '.join(P['anchors']['files'])}. Mechanisms meant to make it hold: {mech}

WHAT TO PRODUCE — {len(ids)} different seeded changes, named {', '.join(ids)}:
For each change X:
1. `git -C /repo worktree add --detach /tmp/seedwt/X HEAD` (fresh worktree of the current HEAD), edit py4hw source files there (NOT the tests). Some files use CRLF line endings, some LF: edit with targeted replacements, do not rewrite whole files or normalise line endings.
2. The change must (a) keep the package importable, (b) keep the repository's existing test-suite passing: `cd /tmp/seedwt/X && PYTHONPATH=/tmp/seedwt/X /venv/bin/python -m pytest -q -p no:cacheprovider --timeout=900 -x -q` must pass all 161 tests (note: test/unit/Test_FPAdder_SP.py::test_random and Test_FPtoInt_SP::test_random use unseeded random operands and fail now and then on the UNCHANGED code too — re-run if only one of those fails), (c) genuinely break the property above for SOME inputs/configurations/histories, (d) look like something a developer could plausibly write (an off-by-one, a swapped operand in one branch, a dropped mask, a changed priority, a special case mishandled, a refactoring slip), and (e) need something specific to manifest — a particular width combination, constant, interleaving, multi-step history, rare state, unusual option, or two sites that each look fine alone — NOT something that every ordinary use would expose at once.
3. Write a demonstration `/tmp/seedwt/X_demo.py`: a small self-contained script using only py4hw's public API that exits with status 0 on the unchanged code and non-zero (assertion failure) with your change. Run it both ways (`PYTHONPATH=/tmp/seedwt/X` vs `PYTHONPATH=/repo`) and confirm.
4. Save the patch: `git -C /tmp/seedwt/X diff > /tmp/seedwt/X.patch` and a description `/tmp/seedwt/X.json` with keys: property, files_changed, what_it_breaks, needs_to_manifest, demo_cmd, test_suite_result.
5. Remove nothing: leave the worktree in place (the evaluator removes it).
EARLIER SEEDED CHANGES for this property (do NOT repeat these or close variants; pick different code sites, clauses and triggering conditions):
{chr(10).join(earlier) if earlier else '- none'}

Make the changes attack DIFFERENT clauses/mechanisms of the property and different code sites where possible. Do not weaken or delete functionality wholesale, do not touch tests, do not add randomness or environment dependence.

Reply with a short list: for each change its id, one-line description, what it needs to manifest, and confirmation that the test suite passed and the demo behaves as required.
"""
out = f'/tmp/seedwt/prompt_{pid}_{ids[0]}.txt'
os.makedirs('/tmp/seedwt', exist_ok=True)
open(out, 'w').write(txt)
print(out, len(txt))
