#!/bin/bash
# usage: confirm_seed.sh <id>   (expects /tmp/seedwt/<id>.patch, <id>_demo.py, <id>.json)
# confirms in a scratch worktree: patch applies to HEAD, test-suite passes with it, demo fails with it and passes without it.
X=$1
WT=/tmp/cs_$X
OUT=/verif/seeded/$X
mkdir -p $OUT
git -C /repo worktree remove --force $WT 2>/dev/null; rm -rf $WT
git -C /repo worktree add --detach $WT HEAD >/dev/null 2>&1 || { echo "$X: worktree failed"; exit 2; }
( cd $WT && git apply --whitespace=nowarn /tmp/seedwt/$X.patch ) || { echo "$X: patch does not apply"; git -C /repo worktree remove --force $WT; exit 2; }
# the baseline suite has two tests with unseeded random operands (Test_FPAdder_SP::test_random, Test_FPtoInt_SP::test_random) that fail
# about one run in four on the UNCHANGED tree: when they are the only failures the suite is re-run (at most 3 times)
for TRY in 1 2 3 4; do
( cd $WT && PYTHONPATH=$WT timeout 1800 /venv/bin/python -m pytest -q -p no:cacheprovider --timeout=900 --continue-on-collection-errors -q > $OUT/tests.log 2>&1 ); TRC=$?
[ $TRC -eq 0 ] && break
OTHER=$(grep '^FAILED\|^ERROR' $OUT/tests.log | grep -v 'Test_FPAdder_SP::test_random\|Test_FPtoInt_SP::test_random' | wc -l)
[ $OTHER -ne 0 ] && break
done
TSUM=$(tail -1 $OUT/tests.log)
PYTHONPATH=$WT MPLBACKEND=Agg timeout 600 /venv/bin/python /tmp/seedwt/${X}_demo.py > $OUT/demo_with.log 2>&1; DW=$?
PYTHONPATH=/repo MPLBACKEND=Agg timeout 600 /venv/bin/python /tmp/seedwt/${X}_demo.py > $OUT/demo_without.log 2>&1; DWO=$?
cp /tmp/seedwt/$X.patch $OUT/patch.diff
cp /tmp/seedwt/${X}_demo.py $OUT/demo.py
python3 - <<PY
import json
m=json.load(open('/tmp/seedwt/$X.json')) if __import__('os').path.exists('/tmp/seedwt/$X.json') else {}
meta=dict(id='$X', property='${X:0:3}', author='independent sub-agent given only the property text and a scratch worktree',
          description=m, confirmed=dict(repo_head='$(git -C /repo rev-parse --short HEAD)', test_suite_rc=$TRC, test_suite_summary='''$TSUM''',
          demo_rc_with_change=$DW, demo_rc_without_change=$DWO,
          ok=bool($TRC==0 and $DW!=0 and $DWO==0)),
          ran=['git worktree add; git apply patch.diff', 'pytest (baseline command) in the worktree', 'demo.py with PYTHONPATH=worktree and with PYTHONPATH=/repo'])
json.dump(meta,open('$OUT/meta.json','w'),indent=1)
print('$X', 'tests rc', $TRC, '|', '''$TSUM''', '| demo with/without', $DW, $DWO)
PY
rm -f $OUT/tests.log $OUT/demo_with.log $OUT/demo_without.log
git -C /repo worktree remove --force $WT
