#!/usr/bin/env python3
"""usage: mk_strengthen_prompt.py <Cxx> <seed ids, comma separated or -> <extension text file or ->
-> writes /verif/notes/prompts/strengthen_<Cxx>.txt : the prompt for a BUILDER sub-agent (it may read /verif; it is not a seed author)."""
import json, sys, os
pid, seeds, ext = sys.argv[1], sys.argv[2], sys.argv[3]
P = next(json.loads(l) for l in open('/verif/properties.jsonl') if json.loads(l)['id'] == pid)
seeds = [] if seeds == '-' else seeds.split(',')
ext_txt = '' if ext == '-' else open(ext).read()
mech = '; '.join(f"{m['name']} ({m['where']})" for m in P['anchors'].get('mechanism', []))
p = pid.lower()
seed_txt = ''
for s in seeds:
    m = json.load(open(f'/verif/seeded/{s}/meta.json'))
    d = m['description']
    seed_txt += f"""
* seeded/{s}/ (patch.diff, demo.py, meta.json) — what it breaks: {d.get('what_it_breaks','')[:900]}
  needs to manifest: {d.get('needs_to_manifest','')[:700]}
  current result of `./mtp.sh seeded/{s}/patch.diff {pid}`: {m.get('result','')}"""
txt = f"""You are extending one part of a Lean-4 verification framework for the Python HDL library py4hw (source in /repo, read-only for you). The framework lives in /verif and is already built and working (`cd /verif && ./check {pid} --tier quick` exits 0 on the unchanged tree). FIRST read /verif/FRAMEWORK.md completely (rules, infrastructure, check contract), then /verif/notes/{pid}.md (what is modelled/proved for this property so far), then harness/{p}.py (+ the helper modules it imports), lean/Py4hwV/Props/{pid}*.lean, lean/Drv/{pid}*.lean and the model files they import, then the anchored source in /repo.

YOUR PROPERTY ({pid}) — given and fixed, never reinterpret it more weakly:
Title: {P['title']}
Statement: {P['statement']}
Quantifier: {P['quantifier']['text']}
Anchors: {', '.join(P['anchors']['files'])}; mechanisms: {mech}

TASK A — seeded changes the check does not yet catch with a concrete failing input. Each is a realistic source change, written by an independent author, that breaks the property while /repo's 161 tests still pass:{seed_txt if seed_txt else ' (none pending for this property)'}
For each: read patch.diff and demo.py, work out WHY the check misses it (generator never builds the triggering configuration? oracle blind to the effect? stream attributes it to a known finding? only a proof/tie breaks and the failing-input search has no stream that reaches it?), then strengthen the machinery IN GENERAL — widen the generator/stream to the whole CLASS of configurations/histories the seed belongs to, add the missing oracle clause, extend the Lean model + theorem where the modelled fragment was too small — never by special-casing the seed's literal input. Target: `cd /verif && ./mtp.sh seeded/<id>/patch.diff {pid}` prints `VIOLATION property={pid} replay=...` WITHOUT the suffix no-failing-input-found (i.e. with a concrete failing input/design/history in the replay), in the quick tier, for VERIF_SEED=0 at least (better: 0,1,2); and `./check {pid} --tier quick` on the unchanged /repo still exits 0 with no VIOLATION line for VERIF_SEED in 0 1 2 3 (KNOWN-FINDING lines are fine). Then update the "result" field of seeded/<id>/meta.json to "initially MISSED (<why>); after <what you added>: caught, <first failing-input line>" (keep the other fields).

TASK B — extend what is PROVED and what is inside the model (the main deliverable is the Lean model and its theorems; sampling never stands in for a theorem).{(' ' + ext_txt) if ext_txt else ''} In general: pick the most valuable item listed as partial / only validated / not modelled for {pid} in notes/{pid}.md and DESIGN.md §10.1b, model it (core-only Lean, reading like the Python), tie it to the real code in harness/{p}.py (differential through the line-protocol driver on seeded structured inputs, exhaustive small cases), prove universally quantified theorems (widths/arities/histories are variables; induction/invariants; a non-vacuity `example` after each), add their names to OBLIGATIONS in harness/{p}.py so the per-run axiom audit covers them. Keep everything compiling at all times: no sorry/admit/axiom/native_decide/bv_decide/implemented_by/unsafe/maxHeartbeats 0; a theorem you cannot finish is either proved in a clearly named `_partial` form (full statement kept in a comment, what is missing stated in notes) or left out. If the unchanged /repo code really violates the property on some input, say so in notes/{pid}.md with the concrete failing input, a proposed known_findings.json entry (id, anchor, class_expr = complement of the `_partial` hypothesis, witness, what) or a proposed MINIMAL fix (as a diff file under /verif/notes/, do NOT edit /repo); the integrator decides.

RULES: touch only this property's own files (harness/{p}*.py, lean/Py4hwV/Props/{pid}*.lean, lean/Drv/{pid}*.lean, your model/proof files, corpus/{pid}/, notes/{pid}.md, seeded/<your seeds>/meta.json); shared files (harness/common.py, py2lean.py, t1.py, dump_ir.py, gen_designs.py, vparse.py, vsim.py, gen_vdesigns.py, lean/Py4hwV/Core, Net, Verilog, Lib/Leaf.lean) only additively and only when unavoidable — other agents are working on other properties in the same tree at the same time. Build only your own lake targets (`cd /verif/lean && lake build Py4hwV.Props.{pid}`), never a bare `lake build`, never ./setup.sh. Never modify /repo. Do not git commit. Do not edit DESIGN.md, MANIFEST.json, properties.jsonl, known_findings.json. Keep the quick tier <= ~3-4 min wall and the thorough tier <= ~30 min. All randomness from common.Rng (VERIF_SEED). Nothing a check needs may live under /tmp. Clean up every scratch copy you make under /tmp (mtp.sh cleans its own).

MUTATION TESTING: `./mtp.sh <patchfile> {pid}` runs the check against a private patched copy of /repo (it copies /verif as it is on disk, so save your edits first). Besides the seeds above, test 1-2 hand-made semantic mutations of your own against the parts you add (write the patch with `git -C /repo diff`-style paths by editing a scratch copy: `cp -r /repo /tmp/mt_{pid} && edit && (cd /tmp/mt_{pid} && git diff > /tmp/my.patch) && rm -rf /tmp/mt_{pid}`; files use CRLF or LF line endings — targeted replacements only).

When done (or after roughly 2.5 hours), update notes/{pid}.md (what is new: model, theorem names with one-line meaning, what is still partial, which kinds of change each new part catches, defects found) and reply with a SHORT report: files touched, new theorem names, seeds now caught (with the failing-input line), anything still missed and why, defects found in /repo (with failing input), quick-tier wall time, results of the VERIF_SEED=0..3 runs on the unchanged tree.
"""
out = f'/verif/notes/prompts/strengthen_{pid}.txt'
open(out, 'w').write(txt)
print(out, len(txt))
