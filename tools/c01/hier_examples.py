"""Prints the Lean terms of the non-vacuity examples of lean/Py4hwV/Props/C01Hier.lean: for two hand-built py4hw designs, the
description `HierSrc` imported from the live objects (harness/c01.py HierExporter) and the module list parsed from the text the
real generator wrote (harness/vparse.py).  Run:  PYTHONPATH=/repo:harness /venv/bin/python tools/c01/hier_examples.py"""
import sys
from common import *
import py4hw, vparse, vsim
import c01


def q(s): return '"%s"' % s
def E(e):
    t = e[0]
    if t == 'id': return f'.id {q(e[1])}'
    if t == 'num':
        w = 'none' if e[1] < 0 else f'(some {e[1]})'
        return f'.num {w} {"true" if e[2] else "false"} {e[3]} {"true" if e[4] else "false"}'
    if t == 'un': return f'.un {q(e[1])} ({E(e[2])})'
    if t == 'bin': return f'.bin {q(e[1])} ({E(e[2])}) ({E(e[3])})'
    if t == 'tern': return f'.tern ({E(e[1])}) ({E(e[2])}) ({E(e[3])})'
    if t == 'idx': return f'.idx {q(e[1])} ({E(e[2])})'
    if t == 'rng': return f'.rng {q(e[1])} {e[2]} {e[3]}'
    if t == 'cat': return f'.cat ({E(e[1])}) ({E(e[2])})'
    if t == 'cat1': return f'.cat1 ({E(e[1])})'
    if t == 'rep': return f'.rep {e[1]} ({E(e[2])})'
    if t == 'sgn': return f'.sgn ({E(e[1])})'
    raise Exception(t)
def L(l):
    if l[0] == 'lid': return f'.lid {q(l[1])}'
    if l[0] == 'lrng': return f'.lrng {q(l[1])} {l[2]} {l[3]}'
    raise Exception(l[0])
def St(s):
    t = s[0]
    if t == 'skip': return '.skip'
    if t == 'ife': return f'.ife ({E(s[1])}) ({St(s[2])}) ({St(s[3])})'
    if t == 'nba': return f'.nba ({L(s[1])}) ({E(s[2])})'
    raise Exception(t)
def It(it):
    t = it[0]
    if t == 'wire': return f'.wire {q(it[1])} {it[2]}'
    if t == 'regi': return f'.reg {q(it[1])} {it[2]} (some ({E(it[3])}))'
    if t == 'assign': return f'.assign ({L(it[1])}) ({E(it[2])})'
    if t == 'always': return f'.always (.pos {q(it[1][1])}) ({St(it[2])})'
    if t == 'inst':
        conns = ', '.join(f'({q(c[1])}, {E(c[2])})' for c in it[4][1:])
        return f'.inst {q(it[1])} {q(it[2])} [] [{conns}]'
    raise Exception(t)
def Modl(m):
    ports = ',\n       '.join('{ dir := .%s, isReg := false, width := %d, name := %s }' % ({'in': 'inp', 'out': 'out'}[p[1]], p[3], q(p[4])) for p in m[3][1:])
    items = ',\n       '.join(It(i) for i in m[4][1:])
    return '{ name := %s, params := [],\n     ports :=\n      [%s],\n     items :=\n      [%s] }' % (q(m[1]), ports, items)


def read_sexp(s):
    toks = s.replace('(', ' ( ').replace(')', ' ) ').split()
    def go(i):
        if toks[i] == '(':
            out = []; i += 1
            while toks[i] != ')':
                x, i = go(i); out.append(x)
            return out, i + 1
        return toks[i], i + 1
    return go(0)[0]

NL = lambda xs: '[' + ', '.join(xs) + ']'
def gkind(x):
    if x[0] == 'prim':
        a = x[1:]
        if a[0] in ('catm', 'catl'): return f'.prim (.{a[0]} {NL(a[2])} {a[1]})'
        return '.prim (.' + ' '.join(a) + ')'
    a = x[1:]
    if a[0] in ('bitsL', 'bitsM'): return f'.{a[0]} {a[1]} {NL(a[2])}'
    if a[0] == 'nary': return f'.nary .{a[1]} {NL(a[2])} {a[3]} {NL(a[4])} {a[5]}'
    if a[0] == 'dm': return f'.dm {"true" if a[1] != "0" else "false"} {a[2]} {a[3]} {a[4]}'
    if a[0] == 'equal': return '.equal ' + ' '.join(a[1:12]) + f' {NL(a[12])} {NL(a[13])} {a[14]}'
    if a[0] == 'eqc': return f'.eqc {a[1]} {a[2]} {a[3]} {NL(a[4])} {NL(a[5])} {NL(a[6])}'
    return '.' + ' '.join(a)
def gchild(x):
    if x[0] == 'reg':
        _, i, m, hr, he, rv, d, e, r, qq = x
        return ('.reg { iname := %s, mname := %s, leaf := { hasR := %s, hasE := %s, rv := %s, d := %s, e := %s, r := %s, q := %s } }'
                % (q(i), q(m), 'true' if hr != '0' else 'false', 'true' if he != '0' else 'false', rv, d, e, r, qq))
    return f'.kind ({gkind(x)})'
def child(x, n, ind):
    if n == 0: return gchild(x)
    if x[0] == 'sub': return f'.sub {q(x[1])}\n{" " * (ind + 2)}{modn(x[2], n - 1, ind + 2)}'
    return f'.g ({gchild(x)})'
def modn(m, n, ind):
    """structure instance whose first field starts at column ind + 2; every other field on its own line at the same column"""
    _, mn, names, ins, outs, locs, chs = m
    sp = '\n' + ' ' * (ind + 2)
    kids = (',' + sp + ' ').join(child(c, n, ind + 3) for c in chs[1:])
    return ('{ mname := %s,%snames := %s,%sinputs := %s,%soutputs := %s,%slocals := %s,%schildren :=%s [%s] }' % (
        q(mn), sp, NL(f'({k}, {q(v)})' for k, v in names[1:]), sp, NL(f'({q(k)}, {v})' for k, v in ins[1:]), sp,
        NL(f'({q(k)}, {v})' for k, v in outs[1:]), sp, NL(locs[1:]), sp, sp, kids))
def hsrc(s, vorder):
    _, dp, clk, ws, top, od = read_sexp(s)
    return ('{ depth := %s, clk := %s,\n    widths := %s,\n    top :=\n      %s,\n    order := %s,\n    vorder := %s }' % (
        dp, q(clk), NL(ws[1:]), modn(top, int(dp), 6), NL(od[1:]), NL(str(v) for v in vorder)))


def show(name, hw, top):
    text = vsim.gen_text(py4hw.VerilogGenerator(top), top)
    tree = vparse.parse(text)
    d = dict(hw=hw, top=top)
    src = c01.HierExporter(d, tree).export()
    out = run_driver('Drv/C01Hier.lean', ['design ' + vparse.sexp(tree), 'hsrc ' + src, 'check', 'vorder'])
    print('--', name, 'driver:', out[2])
    print('/-', text, '-/')
    print('-- hsrc:', src)
    print(f'def {name} : HierSrc :=\n  ' + hsrc(src, [int(x) for x in out[3].split()]))
    print(f'def {name}Text : V.Design :=\n  [' + ',\n   '.join(Modl(m) for m in tree[1:]) + ']')


def design1():
    hw = py4hw.HWSystem()
    a = hw.wire('a', 3); b = hw.wire('b', 3); o1 = hw.wire('o1', 3); o2 = hw.wire('o2', 3)
    class Blk(py4hw.Logic):
        def __init__(self, parent, name, x, y, z):
            super().__init__(parent, name)
            self.addIn('x', x); self.addIn('y', y); self.addOut('z', z)
            t = self.wire('t', 3)
            py4hw.And2(self, 'g', x, y, t)
            py4hw.Reg(self, 'r', t, z)
    class Mid(py4hw.Logic):
        def __init__(self, parent, name, x, y, z):
            super().__init__(parent, name)
            self.addIn('mx', x); self.addIn('my', y); self.addOut('mz', z)
            Blk(self, 'b', x, y, z)
    class Top(py4hw.Logic):
        def __init__(self, parent, name):
            super().__init__(parent, name)
            self.addIn('a', a); self.addIn('b', b); self.addOut('o1', o1); self.addOut('o2', o2)
            Mid(self, 'm', a, b, o1)
            Blk(self, 'k', a, o1, o2)
    return hw, Top(hw, 'top')


def design2():
    hw = py4hw.HWSystem()
    a = hw.wire('a', 2); b = hw.wire('b', 2)
    e = hw.wire('e', 1); c = hw.wire('c', 1); n = hw.wire('n', 2); dv = hw.wire('dv', 2); x = hw.wire('x', 2)
    b0 = hw.wire('b0', 1); b1 = hw.wire('b1', 1)
    class Top(py4hw.Logic):
        def __init__(self, parent, name):
            super().__init__(parent, name)
            self.addIn('a', a); self.addIn('b', b)
            for w in (e, c, n, dv, x, b0, b1):
                self.addOut(w.name, w)
            py4hw.Equal(self, 'eq', a, b, e)
            py4hw.EqualConstant(self, 'ec', a, 2, c)
            py4hw.Nor(self, 'nor', [a, b, x], n)
            py4hw.Div(self, 'div', a, b, dv)
            py4hw.Xor2(self, 'xor', a, b, x)
            py4hw.BitsLSBF(self, 'bits', a, [b0, b1])
    return hw, Top(hw, 'top')


if __name__ == '__main__':
    show('exH', *design1())
    show('exG', *design2())
