#!/usr/bin/env python3
"""Generates /verif/MANIFEST.json from the table below (keeps it schema-valid and not_applicable current)."""
import json, os
V = os.path.abspath(os.path.join(os.path.dirname(__file__), '..'))
TB = ("Trusted: Lean 4.33 kernel; axioms ⊆ {propext, Classical.choice, Quot.sound} (audited by #print axioms each run; no sorry/native_decide/"
      "bv_decide/axiom); translator harness/py2lean.py (validated each run by executing generated definitions against the real methods); "
      "line-protocol drivers and the Python correspondence harness; ")
CHECKS = {
 'C01': dict(cat='translation_validation', ref='DESIGN.md §5 C01',
   text="Every explored design's REAL emitted Verilog is parsed and executed under a Lean formalisation of IEEE 1364 (expression sizing/signedness, continuous assigns to fixpoint, non-blocking updates, initial values, hierarchy) and compared from power-up, cycle by cycle, on every top-level output with the real simulator. The universally quantified part is proved in Lean: for every inlinable primitive the emitted expression form equals the Python leaf's landed value for ALL operand/result widths and values, and the emitted register body queues exactly Reg.clock's rule for controls of any width. Design-level theorem for FLAT designs (14 primitive kinds + Reg, any netlist meeting an explicit well-formedness predicate, any text order of the assigns): settled Verilog store = simulator model's propagateAll on every net, one cycle = clk 1, power-up = initC, hence agreement after every clk of any history, stated on the shipped interpreter (Props/C01Flat). The link to the REAL TEXT is proved too (mkSim_shipInv / text_run): for every flat source description S that passes the executable check S.check, the Verilog interpreter run on the text S.emit agrees with the simulator model on every net after every clk of any history; per design the harness imports S from the live circuit and the driver decides `parsed real text = S.emit` syntactically (derived DecidableEq), so for covered designs (19 primitive kinds + Reg; 49/80 of the random plan stream, all of the dedicated flat stream) nothing behavioural is left to trust. Deeper hierarchy, module sharing, multi-assign/multi-leaf primitives (Bits*, Nand2/Nor2/Xor2, Equal*), Div/Mod, gated or derived clocks and transpiled bodies are validated per design, not proved for all designs.",
   note=TB + "the formal reading of IEEE 1364-2005 in lean/Py4hwV/Verilog is ours alone (no Verilog simulator installed); value-level x; unsized literals 32-bit signed; hand-written memory bodies (reg arrays, attribute instances) are not executed (parse/well-formedness only, C03); gated clocks without a wire are refused by the generator, derived clocks are a listed finding; division/modulo by zero excluded.",
   tech="translation validation against a Lean-formalised Verilog semantics + Lean proofs of per-primitive inline soundness and the register body"),
 'C04': dict(cat='proof', ref='DESIGN.md §5 C04',
   text="Literal Lean model of Simulator.topologicalSort (Net/Sched) with theorems: whatever the sorter returns is a permutation that strictly respects every dependency (any pass limit, any instantiation order); every combinational cycle incl. self-loops is rejected; the swap sorter TERMINATES on every acyclic netlist within n(n-1)/2+1 passes (potential = number of rank inversions), hence with the code's limit max(1000, n+1) every acyclic netlist of at most 45 leaves is accepted and acceptance ⇔ acyclic there; over the simulator model, evaluating stateless leaves in any edge-respecting order reaches the unique fixpoint, two orders agree, propagateAll is idempotent. NOT proved: acceptance of acyclic netlists with more than 45 leaves under the code's limit (needs the ≤ n passes conjecture; explored exhaustively on all digraphs with ≤ 4 leaves, sampled to 6, hill-climbed to 14).",
   note=TB + "sorter model tied by exact-order differential runs against Simulator.propagatables on seeded netlists; leaves modelled as stateless functions with read/write sets (Latch/AsynchronousMemory/Div-Mod-by-zero excluded).",
   tech="Lean 4 proofs (invariant of the pass loop, permutation, path ordering, fixpoint uniqueness by list induction) + differential correspondence"),
 'C05': dict(cat='proof', ref='DESIGN.md §5 C05',
   text="Lean proofs over the simulator model with arbitrary leaf functions: clock() calls never change a wire value (every block sees pre-edge values), the post-edge state is invariant under any permutation of drivers and clockables (distinct blocks drive distinct wires), settle gives each prepared wire its last prepared value and empties the pending list, clk(m+n)=clk(n)∘clk(m) given idempotent propagate (proved in C04).",
   note=TB + "model of _clk_cycle tied by differential simulation of seeded multi-domain netlists with externally permuted clockables; leaf discipline (clock() only prepares) by AST scan.",
   tech="Lean 4 proofs by list induction and permutation induction + differential correspondence with permuted schedules"),
 'C06': dict(cat='proof', ref='DESIGN.md §5 C06',
   text="Invariant proof in Lean 4 over a model of the simulator in which leaves are arbitrary functions: every reachable state (any design, any pokes incl. negative/oversized, any clk(n) history, listener points) has all wire values in [0,2^w). The mask is regenerated from base.py on every run (Gen.Wire.put/prepare) and bridged by proof.",
   note=TB + "model of Simulator/_clk_cycle tied by differential simulation of seeded random netlists; assumption that leaves write wires only via put/prepare (static scan).",
   tech="Lean 4 invariant proof by induction over operation lists; translator-regenerated mask + bridge lemma; differential correspondence"),
 'C10': dict(cat='proof', ref='DESIGN.md §5 C10',
   text="Lean proofs: getObjectClockDriver = nearest ancestor-or-self with a driver (fails iff none), clockables are grouped under exactly their driver, a block under a disabled driver keeps state and outputs, an enabled gated driver is indistinguishable from an ungated one, blocks of other domains are unaffected — for arbitrary leaf functions, enables (any design wire, read pre-edge), numbers of domains.",
   note=TB + "driver lookup/grouping and gating tied by differential runs on random hierarchies and multi-domain netlists; Verilog-side gating belongs to C01.",
   tech="Lean 4 proofs over the simulator model + differential correspondence"),
}
REASON_PENDING = "check not yet integrated in this round (model/proofs under construction; see DESIGN.md §5)"
ALL = [f'C{i:02d}' for i in range(1, 21)]


def main():
    extra = {}
    p = os.path.join(V, 'tools', 'manifest_extra.json')
    if os.path.exists(p):
        extra = json.load(open(p))
    checks = dict(CHECKS)
    checks.update(extra.get('checks', {}))
    na = extra.get('not_applicable', {})
    m = {"version": 1, "setup_cmd": "./setup.sh",
         "hooks": {"guard": "PY4HW_VERIF",
                   "enable": "no source hooks: every observation uses public attributes; ./check exports PY4HW_VERIF=1 for uniformity",
                   "baseline_off_cmd": "cd /repo && /venv/bin/python -m pytest -ra -q -p no:cacheprovider --timeout=900 --continue-on-collection-errors",
                   "source_commits": [], "add_only": True},
         "engines": [{"name": "lean4-proof", "path": "lean/", "serves_properties": sorted(checks),
                      "kind_free_text": "Lean 4 model + theorems (lake project Py4hwV), Gen/ regenerated from /repo by harness/py2lean.py on every run, line-protocol drivers under lean/Drv for the correspondence"}],
         "checks": [], "not_applicable": [],
         "notes": "fix: commits in /repo and the recorded findings are listed in known_findings.json (status fixed / known) and DESIGN.md §11; seeded changes and which check catches which: seeded/*/meta.json and DESIGN.md §12. Every check was run under VERIF_SEED 0-8 on the unchanged tree (tools/seed_sweep.sh)."}
    p8 = os.path.join(V, 'tools', 'manifest_round8.json')
    add8 = json.load(open(p8)) if os.path.exists(p8) else {}
    for pid in sorted(checks):
        c = dict(checks[pid])
        if pid in add8:
            c['text'] = c['text'] + ' ROUND 8: ' + add8[pid].get('text', '')
            if add8[pid].get('note_replace'):
                for a_, b_ in add8[pid]['note_replace']:
                    c['note'] = c['note'].replace(a_, b_)
        m['checks'].append({"property_id": pid, "quick_cmd": f"./check {pid} --tier quick", "thorough_cmd": f"./check {pid} --tier thorough",
                            "evidence_file": f"evidence/{pid}.json", "replay_cmd_template": f"./check {pid} --replay {{path}}",
                            "engine": "lean4-proof",
                            "level_claimed": {"category": c['cat'], "text": c['text'], "design_ref": c['ref']},
                            "level_note": c['note'], "technique": c['tech']})
    for pid in ALL:
        if pid not in checks:
            m['not_applicable'].append({"property_id": pid, "reason": na.get(pid, REASON_PENDING)})
    json.dump(m, open(os.path.join(V, 'MANIFEST.json'), 'w'), indent=1, ensure_ascii=False)
    print('checks:', sorted(checks), 'not claimed:', [x['property_id'] for x in m['not_applicable']])


if __name__ == '__main__':
    main()
