#!/bin/bash
# usage: tools/run_all.sh [tier] [jobs]   — run every claimed check, print one summary line per property
cd "$(dirname "$0")/.."
T=${1:-quick}; J=${2:-4}
ids=$(python3 -c "import json; print(' '.join(c['property_id'] for c in json.load(open('MANIFEST.json'))['checks']))")
mkdir -p /tmp/run_all
printf '%s\n' $ids | xargs -P $J -I{} bash -c "( /usr/bin/time -f '%e s' ./check {} --tier $T > /tmp/run_all/{}.log 2>&1; echo \"{} rc=\$? \$(grep -c '^KNOWN-FINDING' /tmp/run_all/{}.log) known | \$(grep -E '^(OK|VIOLATION|TOOL-FAILURE)' /tmp/run_all/{}.log | head -1 | cut -c1-150) | \$(tail -1 /tmp/run_all/{}.log)\" )"
