#!/bin/bash
# usage: tools/seed_sweep.sh "<seeds>" "<checks>" [jobs] [tier]  — runs every check under every seed, lists the runs that did not exit 0
cd "$(dirname "$0")/.."
SEEDS=${1:-"1 2 3"}; CHECKS=${2:-"C01 C02 C03 C04 C05 C06 C07 C08 C09 C10 C11 C12 C13 C14 C15 C16 C17 C18 C19 C20"}; J=${3:-5}; TIER=${4:-quick}
OUT=${SWEEP_OUT:-/tmp/sweep}; mkdir -p $OUT
for s in $SEEDS; do for c in $CHECKS; do echo "$s $c"; done; done | xargs -P $J -L 1 bash -c 'VERIF_SEED=$0 ./check $1 --tier '$TIER' > '$OUT'/$1-$0.log 2>&1; echo "$1 seed=$0 exit=$?"' | tee $OUT/summary-$$.txt | grep -v "exit=0"
echo "sweep done: $(grep -c . $OUT/summary-$$.txt) runs, $(grep -vc 'exit=0' $OUT/summary-$$.txt) non-zero"
