#!/bin/bash
# usage: mt.sh <Cxx> <sed-expr> <file-relative-to-repo> [tier]   — run a check against a mutated private copy
P=$1; EXPR=$2; F=$3; T=${4:-quick}
D=/tmp/mt_$P_$$
rm -rf $D && mkdir -p $D && cp -r /repo $D/repo && rsync -a --exclude .git /verif/ $D/verif/
sed -i "$EXPR" $D/repo/$F
(cd $D/repo && git diff --stat | tail -1)
PY4HW_REPO=$D/repo $D/verif/check $P --tier $T 2>&1 | grep -v "^  " | tail -4
rm -rf $D
